"""C20 - Built-in help agrees with what the program accepts; the manual has no dead links.

Two sides are compared, and neither is taken from the implementation's data structures alone:

* LISTED  - parsed from what the program prints: `help instructions`, `help PHASE instructions`, the
  "Instructions" part of `help PHASE`, `help suite spec` (sections), `help suite SECTION` ("Additional
  instructions"), `help help` (entity types) and `help ENTITY-TYPE` (entities).
* ACCEPTED - (a) behaviour: a minimal test case / suite / command line that uses the name; "rejected" is decided
  by comparison with a control name that certainly does not exist (the error of NAME equals the error of the
  control with the name replaced), so no message text is transcribed; (b) the parser tables of the production
  set-up (`default_instructions_setup.INSTRUCTIONS_SETUP`, `test_suite.test_suite_definition()`,
  `builtin_symbols.ALL`) as a second, independent source of candidates.

Sub-checks: see SUBS at the end.
"""
import os
import re
from html.parser import HTMLParser
from urllib.parse import unquote

from hypothesis import strategies as st

from vlib import driver
from vlib.runner import Sub, Verdict, fail

PROPERTY_ID = 'C20'
LEVEL = 'exploration'
RULE = ('enumerated completely (exhaustive): every (phase, name) with name in listed(help) | parser-table, every '
        'suite (section, name), every (entity type, entity) listed by `help TYPE` or known to a second source '
        '(builtin symbol table, `actor` synopsis, `--reporter` choices, `def` type list), every href and every id of '
        '`help htmldoc`, every help page with its `(>help ...)` references; a sample of requests through the real '
        'command line program (sub-process) compared with the in-process entry point; Hypothesis: negative names = names of '
        'other phases/sections/entity types and edit-distance-1 mutations (insert/delete/substitute/transpose/'
        'case) of listed names, and random help argument lists (synopsis forms with exact names, perturbed forms, '
        'random tokens).  Every case is non-trivial except negative draws that happen to be listed names; '
        'distinct = distinct (sub-check, place, name) resp. distinct argument list')
ASSUMPTIONS = [
    'the six phase names and the eight entity type identifiers are transcribed from `help case spec` / `help help` '
    '(and the property text); sub-check listings compares them with what the tree under test prints',
    'minimal valid uses of the instructions/types (USAGE, TYPE_VALUES) are transcribed from the SYNOPSIS parts of '
    'the manual; names without a transcribed use are probed with the argument `x` and judged by the control-name '
    'comparison only',
    '`help` looks names up by case-insensitive sub-string when there is no exact match (not mentioned by `help '
    'help`): for a name that is NOT listed both readings are accepted - usage error, or the page of a listed name '
    'that contains the argument; a page that cannot be attributed to a listed name is a violation',
    'the help entry of an instruction in a suite section that corresponds to a phase is `help suite SECTION NAME` '
    'or, since `help suite SECTION` says "identical to the [PHASE] test case phase" and refers to `help PHASE`, '
    '`help PHASE NAME`: both accepted (`help suite setup def` is a usage error in the unchanged tree)',
    'a configuration parameter is set by the [conf] instruction of the same name (the manual: "Each instruction '
    'sets one of the configuration parameters"; names coincide in every listing)',
    'usage errors of `help` are exit code 64 with empty stdout, as for the other command lines (`help suite`)',
    'a href without scheme that does not start with "#" is a dead link (the manual is a single document)',
    'concepts and syntax elements have no acceptance behaviour of their own: only listing <-> help page <-> '
    'cross references are checked for them',
]

PHASES = ['conf', 'setup', 'act', 'before-assert', 'assert', 'cleanup']  # `help case spec`
INSTR_PHASES = [p for p in PHASES if p != 'act']
NON_PHASE_SECTIONS = ['cases', 'suites']  # `help suite spec`
ENTITY_TYPES = ['concept', 'directive', 'confparam', 'actor', 'type', 'syntax', 'builtin', 'reporter']
HELP_KEYWORDS = ['help', 'htmldoc', 'case', 'suite', 'symbol', 'instructions']
USAGE_EXIT = 64
CONTROL = 'zq-c20-unknown'
CONTROL_SYM = 'ZQ_C20_UNKNOWN'

# minimal valid uses, from the SYNOPSIS parts of `help PHASE NAME`
USAGE = {
    'act-home': 'act-home = .', 'actor': 'actor = null', 'home': 'home = .', 'status': 'status = PASS',
    '$': '$ true', '%': '% true', 'cd': 'cd .', 'copy': 'copy src.txt', 'def': 'def string C20_SYMBOL = a',
    'dir': 'dir c20-dir', 'env': 'env C20_VAR = b', 'file': 'file c20-file.txt', 'run': 'run % true',
    'stdin': 'stdin = "x"', 'timeout': 'timeout = 5',
    'contents': 'contents -rel-home src.txt : ! is-empty', 'dir-contents': 'dir-contents -rel-home . : ! is-empty',
    'exists': 'exists -rel-home src.txt', 'exit-code': 'exit-code == 0', 'stderr': 'stderr is-empty',
    'stdout': 'stdout is-empty',
    'preprocessor': 'preprocessor = cat',
}
# from `help setup def` (TYPE / VALUE table) and `help syntax ...`
TYPE_VALUES = {
    'string': 'a', 'list': 'a b', 'path': 'p', 'integer-matcher': '== 1', 'line-matcher': 'contents matches x',
    'file-matcher': 'type file', 'files-matcher': 'is-empty', 'files-condition': '{ f }',
    'files-source': '{ file f }', 'text-source': '"x"', 'text-matcher': 'is-empty', 'text-transformer': 'strip',
    'program': '% true',
}
# [act] contents that the pages `help actor NAME` describe as valid ({PY} interpreter for the two interpreter actors)
ACT_FOR_ACTOR = {'command line': '% true', 'file interpreter': 'src.py', 'source interpreter': 'pass', 'null': ''}
CONFPARAM_VALUES = {'act-home': '.', 'home': '.', 'actor': 'null', 'status': 'PASS'}
FILES = {'src.txt': 'hello\n', 'inc.xly': '# included by the C20 check\n'}


# ---------------------------------------------------------------------------------------------------------
# running
# ---------------------------------------------------------------------------------------------------------
_HELP_WS = None


def _run(argv, files=None):
    global _HELP_WS
    if not files and argv[:1] == ['help']:
        # help requests neither read nor write files: one work space per process
        # (per process: the runner forks its workers after the regression replays have run in the parent)
        if _HELP_WS is None or _HELP_WS[0] != os.getpid() or not os.path.isdir(_HELP_WS[1].home):
            _HELP_WS = (os.getpid(), driver.Workspace())
        return driver.run_inproc(_HELP_WS[1], list(argv), timeout_s=120)
    with driver.Workspace() as ws:
        for rel, text in (files or {}).items():
            ws.write(rel, text, subst=False)
        return driver.run_inproc(ws, list(argv), timeout_s=120)


_HELP_MEMO = {}


def _help(args, memo=True):
    """-> dict(exit, out, err, exc) of `exactly help ARGS...` (memoised per process: a pure function of the tree)"""
    key = tuple(args)
    if memo and key in _HELP_MEMO:
        return _HELP_MEMO[key]
    r = _run(['help'] + list(args))
    res = {'exit': r.exit_code, 'out': r.out, 'err': r.err, 'exc': r.exception or ('timeout' if r.timed_out else None)}
    if memo and len(_HELP_MEMO) < 5000:
        _HELP_MEMO[key] = res
    return res


def _short(h):
    return {'exit': h['exit'], 'out': h['out'][:300], 'err': h['err'][:400], 'exc': h['exc']}


def _page_problem(h):
    """None if the request displayed a page successfully, else a short class name"""
    if h['exc']:
        return 'exception'
    if h['exit'] != 0:
        return 'exit-%s' % h['exit']
    if not h['out'].strip():
        return 'empty-stdout'
    if h['err'] != '':
        return 'stderr-not-empty'
    if 'Traceback (most recent call last)' in h['out']:
        return 'traceback'
    return None


def _usage_error_problem(h):
    if h['exc']:
        return 'exception'
    if h['exit'] != USAGE_EXIT:
        return 'exit-%s' % h['exit']
    if h['out'] != '':
        return 'stdout-not-empty'
    if not h['err'].strip():
        return 'no-message'
    if 'Traceback (most recent call last)' in h['err']:
        return 'traceback'
    return None


def _tokens(text):
    return text.split()


# ---------------------------------------------------------------------------------------------------------
# parsing what the program prints
# ---------------------------------------------------------------------------------------------------------
_ITEM = re.compile(r'^( *)(\S(?:.*?\S)??) {2,}(\S.*)$')


def parse_items(text):
    """Rows `NAME  description` of the listings (names may contain single blanks; wrapped description lines are
    indented to the description column).  -> [(indent, name, description)]"""
    items = []
    descr_col = None
    for raw in text.split('\n'):
        line = raw.rstrip()
        if not line:
            descr_col = None
            continue
        indent = len(line) - len(line.lstrip(' '))
        if descr_col is not None and indent == descr_col and items:
            items[-1][2] += ' ' + line.strip()
            continue
        m = _ITEM.match(line)
        if m:
            items.append([len(m.group(1)), m.group(2), m.group(3)])
            descr_col = m.start(3)
        else:
            descr_col = None
    return [tuple(i) for i in items]


def _names(items):
    return [i[1] for i in items]


def parse_instructions_per_phase(text):
    """`help instructions` -> {phase: [names]}"""
    res = {}
    cur = None
    chunk = []

    def flush():
        if cur is not None:
            res.setdefault(cur, []).extend(_names(parse_items('\n'.join(chunk))))

    for line in text.split('\n'):
        m = re.match(r'^\[([^\]\s]+)\]\s*$', line)
        if m:
            flush()
            cur, chunk = m.group(1), []
        else:
            chunk.append(line)
    flush()
    return res


def _after_line(text, headers):
    lines = text.split('\n')
    for i, l in enumerate(lines):
        if l.rstrip() in headers:
            return '\n'.join(lines[i + 1:])
    return None


_XREF = re.compile(r'\(>help ([^()]*)\)')


def xrefs_of(text):
    """the `(>help ARGS)` references of a text page; lines are wrapped at blanks and after hyphens"""
    text = re.sub(r'(?<=\w)-\n\s*', '-', text)
    return [m.strip() for m in _XREF.findall(re.sub(r'\s+', ' ', text))]


class _Doc(HTMLParser):
    HEADINGS = ('h1', 'h2', 'h3', 'h4', 'h5', 'h6')

    def __init__(self):
        super().__init__(convert_charrefs=True)
        self.ids = {}  # id -> count
        self.names = {}  # <a name=> -> count
        self.hrefs = {}  # href -> count
        self.n_tags = 0
        self.headed = {}  # id -> text of the first heading inside the element
        self._open = []  # stack of [tag, id, heading-text or None]
        self._in_heading = None

    def handle_starttag(self, tag, attrs):
        self.n_tags += 1
        eid = None
        for k, v in attrs:
            if v is None:
                continue
            if k == 'id':
                self.ids[v] = self.ids.get(v, 0) + 1
                eid = v
            elif k == 'href':
                self.hrefs[v] = self.hrefs.get(v, 0) + 1
            elif k == 'name' and tag == 'a':
                self.names[v] = self.names.get(v, 0) + 1
        if tag in ('br', 'hr', 'img', 'meta', 'link', 'input'):
            return
        self._open.append([tag, eid, None])
        if tag in self.HEADINGS and self._in_heading is None:
            self._in_heading = [len(self._open), '']

    def handle_startendtag(self, tag, attrs):
        self.handle_starttag(tag, attrs)
        if tag not in ('br', 'hr', 'img', 'meta', 'link', 'input') and self._open:
            self._open.pop()

    def handle_data(self, data):
        if self._in_heading is not None:
            self._in_heading[1] += data

    def handle_endtag(self, tag):
        for i in range(len(self._open) - 1, -1, -1):
            if self._open[i][0] == tag:
                if self._in_heading is not None and self._in_heading[0] >= i + 1:
                    text = ' '.join(self._in_heading[1].split())
                    self._in_heading = None
                    # the heading belongs to the innermost enclosing elements that have no heading yet
                    for e in self._open[:i]:
                        if e[2] is None:
                            e[2] = text
                for e in self._open[i:]:
                    if e[1] is not None and e[1] not in self.headed:
                        self.headed[e[1]] = e[2]
                del self._open[i:]
                return


_HTML = None


def html_doc():
    global _HTML
    if _HTML is None:
        h = _help(['htmldoc'], memo=False)
        d = {'problem': _page_problem(h), 'short': _short(h), 'doc': None, 'len': len(h['out'])}
        if d['problem'] is None:
            p = _Doc()
            try:
                p.feed(h['out'])
                p.close()
                d['doc'] = p
                d['head'] = h['out'][:200]
            except Exception as ex:  # html.parser is lenient; anything here is a malformed document
                d['problem'] = 'unparsable: %r' % ex
        _HTML = d
    return _HTML


# ---------------------------------------------------------------------------------------------------------
# the model: listed side (from stdout) and parser tables (second source)
# ---------------------------------------------------------------------------------------------------------
_MODEL = None


def model():
    global _MODEL
    if _MODEL is None:
        _MODEL = _build_model()
    return _MODEL


def _build_model():
    m = {'problems': []}

    def page(args, what):
        h = _help(args)
        p = _page_problem(h)
        if p is not None:
            m['problems'].append({'what': what, 'args': args, 'problem': p, 'observed': _short(h)})
            return None
        return h['out']

    # --- instructions per phase: three listings
    txt = page(['instructions'], 'instruction listing')
    m['L_all'] = parse_instructions_per_phase(txt) if txt is not None else None
    m['L_phase'] = {}
    m['L_page'] = {}
    m['phase_page'] = {}
    for p in PHASES:
        h = _help([p, 'instructions'])
        if _page_problem(h) is None:
            m['L_phase'][p] = _names(parse_items(h['out']))
        elif _usage_error_problem(h) is None:
            m['L_phase'][p] = []  # "the phase does not use instructions"
        else:
            m['L_phase'][p] = None
            m['problems'].append({'what': 'phase instruction listing', 'args': [p, 'instructions'],
                                  'observed': _short(h)})
        txt = page([p], 'phase page')
        m['phase_page'][p] = txt
        if txt is None:
            m['L_page'][p] = None
        else:
            tail = _after_line(txt, ('Instructions',))
            m['L_page'][p] = _names(parse_items(tail)) if tail is not None else []
    # --- suite sections
    txt = page(['suite', 'spec'], 'suite specification')
    secs = []
    if txt is not None:
        for s in re.findall(r'^\s+\[([^\]\s]+)\]\s*$', txt, re.M):
            if s not in secs:
                secs.append(s)
    m['sections'] = secs
    m['L_suite_page'] = {}
    m['suite_page'] = {}
    for s in sorted(set(secs) | set(PHASES) | set(NON_PHASE_SECTIONS)):
        h = _help(['suite', s])
        if _page_problem(h) is None:
            m['suite_page'][s] = h['out']
            tail = _after_line(h['out'], ('Additional instructions', 'Instructions'))
            m['L_suite_page'][s] = _names(parse_items(tail)) if tail is not None else []
        else:
            m['suite_page'][s] = None
            m['L_suite_page'][s] = None
    # --- entity types and entities
    txt = page(['help'], 'help on help')
    m['entity_types'] = []
    if txt is not None:
        lines = txt.split('\n')
        for i, l in enumerate(lines):
            if 'ENTITY-TYPE' in l:
                m['entity_types'] = _names(parse_items('\n'.join(lines[i + 1:])))
                break
    m['entities'] = {}
    m['entity_descr'] = {}
    for t in sorted(set(ENTITY_TYPES) | set(m['entity_types'])):
        h = _help([t])
        if _page_problem(h) is None:
            items = parse_items(h['out'])
            m['entities'][t] = _names(items)
        else:
            m['entities'][t] = None
    # --- second source: parser tables of the production set-up
    m['T_phase'] = None
    m['T_suite_conf'] = None
    m['T_builtin'] = None
    try:
        driver._import_exactly()
        from exactly_lib.cli_default.program_modes.test_case.default_instructions_setup import INSTRUCTIONS_SETUP as S
        m['T_phase'] = {'conf': sorted(S.config_instruction_set), 'setup': sorted(S.setup_instruction_set),
                        'act': [], 'before-assert': sorted(S.before_assert_instruction_set),
                        'assert': sorted(S.assert_instruction_set), 'cleanup': sorted(S.cleanup_instruction_set)}
        from exactly_lib.cli_default.program_modes import test_suite
        m['T_suite_conf'] = sorted(test_suite.test_suite_definition().configuration_section_instructions)
        from exactly_lib.cli_default.program_modes.test_case import builtin_symbols
        m['T_builtin'] = sorted(b.name for b in builtin_symbols.ALL)
    except Exception as ex:
        m['problems'].append({'what': 'parser tables of the production set-up', 'problem': repr(ex)})
    # --- the actor instruction's synopsis: keyword -> actor name
    m['actor_forms'] = []  # (keyword, needs interpreter, actor name)
    txt = _help(['conf', 'actor'])
    if _page_problem(txt) is None:
        norm = txt['out']
        for mm in re.finditer(r'^ +actor = (\S+)( \S+)? *\n *\n((?: +\S.*\n)+)', norm, re.M):
            descr = ' '.join(mm.group(3).split())
            q = re.findall(r'"([^"]+)"', descr)
            if q:
                m['actor_forms'].append((mm.group(1), bool(mm.group(2)), q[0]))
    # --- directives accepted per phase, as the phase pages say
    m['directive_phases'] = {}
    for p in PHASES:
        txt = m['phase_page'].get(p)
        if txt:
            for d in re.findall(r'Accepts the "([^"]+)" directive', ' '.join(txt.split())):
                m['directive_phases'].setdefault(d, []).append(p)
    # --- reporters named by `help suite`
    m['reporter_candidates'] = []
    h = _help(['suite'])
    if _page_problem(h) is None:
        mm = re.search(r'Options: ((?:"[^"]+",?\s*)+)', ' '.join(h['out'].split()))
        if mm:
            m['reporter_candidates'] = re.findall(r'"([^"]+)"', mm.group(1))
    # --- types named by the pages of the `def` instruction (TYPE / VALUE table), per phase
    m['def_table'] = {}
    for p in PHASES:
        if 'def' in listed_union(m, p):
            h = _help([p, 'def'])
            if _page_problem(h) is None:
                mm = re.search(r'^( +)TYPE +VALUE *\n +-+ *\n((?: +\S+ +\S+ *\n)+)', h['out'], re.M)
                m['def_table'][p] = [l.split()[0] for l in mm.group(2).split('\n') if l.strip()] if mm else None
    # --- configuration parameters named by the concept page
    m['confparams_of_concept'] = None
    h = _help(['concept', 'configuration', 'parameter'])
    if _page_problem(h) is None:
        tail = _after_line(h['out'], ('Description',))
        if tail is not None:
            names = []
            for l in tail.split('\n'):
                if l and not l.startswith(' '):
                    break
                mm = re.match(r'^   (\S+)$', l.rstrip())
                if mm:
                    names.append(mm.group(1))
            m['confparams_of_concept'] = names
    # --- types named by the `def` instruction itself
    m['type_candidates'] = []
    r = _run(['t.case'], {'t.case': '[setup]\ndef %s C20_SYMBOL = x\n' % CONTROL})
    mm = re.search(r'Expecting one of (\S+)', r.err)
    if mm:
        m['type_candidates'] = [t for t in mm.group(1).split('|') if t]
    return m


def listed_in_phase(m, p):
    """names listed for phase p by any of the three listings, and the per-listing sets"""
    srcs = {}
    if m['L_all'] is not None:
        srcs['help instructions'] = set(m['L_all'].get(p, []))
    if m['L_phase'].get(p) is not None:
        srcs['help %s instructions' % p] = set(m['L_phase'][p])
    if m['L_page'].get(p) is not None:
        srcs['help %s' % p] = set(m['L_page'][p])
    return srcs


def listed_union(m, p):
    u = set()
    for s in listed_in_phase(m, p).values():
        u |= s
    return u


def listed_in_section(m, s):
    """what the help lists for suite section s: the page's own list plus, for sections that correspond to a
    phase, the phase's instructions"""
    own = set(m['L_suite_page'].get(s) or [])
    via = listed_union(m, s) if s in PHASES else set()
    return own, via


# ---------------------------------------------------------------------------------------------------------
# behaviour probes
# ---------------------------------------------------------------------------------------------------------
def _ident(r):
    return r.out.split('\n', 1)[0] if r.out else ''


def probe_line(kind, section, name, prefix, suffix):
    """Run a case (kind 'case') or a suite without cases (kind 'suite') whose only content is the line
    PREFIX NAME SUFFIX in [section], and the same with the control name in place of NAME.  -> dict"""
    line = prefix + name + suffix
    ctl_line = prefix + CONTROL + suffix
    argv = ['t.case'] if kind == 'case' else ['suite', 't.case']

    def go(l):
        files = dict(FILES)
        files['t.case'] = '[%s]\n%s\n' % (section, l)
        return _run(argv, files)

    r = go(line)
    c = go(ctl_line)
    rejected_exit = 65 if kind == 'case' else 3
    rejected_id = 'SYNTAX_ERROR' if kind == 'case' else 'INVALID_SUITE'
    res = {
        'text': '[%s]\n%s\n' % (section, line), 'argv': argv,
        'exit': r.exit_code, 'ident': _ident(r), 'err': r.err[:600], 'exc': r.exception,
        'control_rejected': c.exit_code == rejected_exit and _ident(c) == rejected_id and not c.exception,
        'control': {'exit': c.exit_code, 'ident': _ident(c), 'err': c.err[:300]},
        'rejected': r.exit_code == rejected_exit and _ident(r) == rejected_id,
    }
    res['unknown_like'] = (r.exit_code == c.exit_code and r.out == c.out
                           and r.err == c.err.replace(CONTROL, name))
    return res


def usage_args(name):
    """the text after the name in a minimal valid use"""
    return USAGE[name][len(name):] if name in USAGE else ' x'


def attributable(arg, listed):
    """listed names whose page `help ... ARG` may show under the sub-string reading"""
    a = arg.upper()
    return sorted(l for l in listed if a in l.upper())


def _is_page_of(out, name, page_out):
    """The page shown with the matched name as header is indented: lines and table cells are wrapped differently
    (also at hyphens), table rules and column separators are repeated another number of times.  Compared is
    what layout cannot change: the header line and the multiset of letters and digits."""
    def norm(x):
        return sorted(c for c in x if c.isalnum())

    if out == page_out:
        return True
    return out.split('\n', 1)[0].strip() == name and norm(out) == norm(name + page_out)


def check_unlisted_help(args_prefix, arg_words, listed, page_args_of):
    """`help PREFIX ARG` for an ARG that is not listed: usage error, or the page of a listed name containing ARG.
    -> (problem or None, label)"""
    h = _help(args_prefix + arg_words, memo=False)
    if h['exc']:
        return {'what': 'exception', 'observed': _short(h)}, 'exception'
    cands = attributable(' '.join(arg_words), listed)
    if _usage_error_problem(h) is None:
        return None, 'usage-error'
    if _page_problem(h) is None:
        for l in cands:
            ph = _help(page_args_of(l))
            if _page_problem(ph) is None and _is_page_of(h['out'], l, ph['out']):
                return None, 'page-of-containing-name'
        return {'what': 'a help page is displayed for a name that is not listed and it is not the page of a '
                        'listed name containing it', 'containing_listed_names': cands,
                'observed': _short(h)}, 'unattributable-page'
    return {'what': 'neither a page nor a usage error', 'observed': _short(h)}, 'malformed-outcome'


# ---------------------------------------------------------------------------------------------------------
# sub-check: listings (the transcribed frame agrees with what the tree prints; listings agree with each other)
# ---------------------------------------------------------------------------------------------------------
def enum_listings(tier):
    yield {'what': 'model'}
    yield {'what': 'phases'}
    yield {'what': 'sections'}
    yield {'what': 'entity-types'}
    for p in PHASES:
        yield {'what': 'phase', 'phase': p}
    for t in ENTITY_TYPES:
        yield {'what': 'entity-type', 'etype': t}
    for a in ([], ['help'], ['case'], ['case', 'spec'], ['suite'], ['suite', 'spec'], ['symbol'], ['instructions']):
        yield {'what': 'fixed-page', 'args': a}
    for p in INSTR_PHASES:
        yield {'what': 'def-type-table', 'phase': p}
    yield {'what': 'reporter-options'}
    yield {'what': 'confparams-of-concept-page'}
    yield {'what': 'actor-synopsis'}


def check_listings(case) -> Verdict:
    m = model()
    what = case['what']
    key = 'listings|' + '|'.join('%s' % v for v in case.values())
    lab = ['listings:' + what]

    def ok():
        return Verdict(True, nontrivial=True, key=key, labels=lab)

    if what == 'model':
        if m['problems']:
            return fail('listings/unavailable', {'problems': m['problems']}, labels=lab, nontrivial=True, key=key)
        return ok()
    if what == 'phases':
        if m['L_all'] is None:
            return fail('listings/help-instructions-unavailable', None, labels=lab, nontrivial=True, key=key)
        extra = sorted(set(m['L_all']) - set(PHASES))
        if extra:
            return fail('listings/unknown-phase-listed', {'listed by `help instructions`': sorted(m['L_all']),
                                                           'phases of `help case spec`': PHASES},
                        labels=lab, nontrivial=True, key=key)
        if m['T_phase'] is not None:
            for p in PHASES:
                if bool(m['T_phase'].get(p)) != bool(m['L_all'].get(p)):
                    return fail('listings/phase-with-instructions-not-listed',
                                {'phase': p, 'parser table': m['T_phase'].get(p), 'listed': m['L_all'].get(p)},
                                labels=lab, nontrivial=True, key=key)
        return ok()
    if what == 'sections':
        exp = set(NON_PHASE_SECTIONS) | set(PHASES)
        if set(m['sections']) != exp:
            return fail('listings/suite-sections-differ', {'`help suite spec`': m['sections'],
                                                           'transcribed': sorted(exp)},
                        labels=lab, nontrivial=True, key=key)
        for s in sorted(exp):
            if m['suite_page'].get(s) is None:
                return fail('listings/suite-section-without-page', {'section': s, 'observed': _short(_help(['suite', s]))},
                            labels=lab, nontrivial=True, key=key)
            # behaviour: a suite consisting of the header only is accepted
            r = _run(['suite', 't.case'], {'t.case': '[%s]\n' % s})
            if r.exit_code != 0 or r.exception:
                return fail('listings/listed-section-not-accepted', {'section': s, 'exit': r.exit_code,
                                                                     'out': r.out[:200], 'err': r.err[:400]},
                            labels=lab, nontrivial=True, key=key)
        return ok()
    if what == 'entity-types':
        if sorted(m['entity_types']) != sorted(ENTITY_TYPES):
            return fail('listings/entity-types-differ', {'`help help`': m['entity_types'], 'transcribed': ENTITY_TYPES},
                        labels=lab, nontrivial=True, key=key)
        return ok()
    if what == 'phase':
        p = case['phase']
        srcs = listed_in_phase(m, p)
        if len(srcs) != 3:
            return fail('listings/phase-listing-unavailable', {'phase': p, 'available': sorted(srcs),
                                                               'problems': m['problems']},
                        labels=lab, nontrivial=True, key=key)
        vals = list(srcs.values())
        if not (vals[0] == vals[1] == vals[2]):
            return fail('listings/phase-listings-disagree', {'phase': p, 'listings': {k: sorted(v) for k, v in srcs.items()}},
                        labels=lab, nontrivial=True, key=key)
        if m['T_phase'] is not None and set(m['T_phase'][p]) != vals[0]:
            return fail('listings/listing-differs-from-parser-table',
                        {'phase': p, 'listed': sorted(vals[0]), 'parser table': m['T_phase'][p]},
                        labels=lab, nontrivial=True, key=key)
        if p == 'act' and vals[0]:
            return fail('listings/act-has-instructions', {'listed': sorted(vals[0])}, labels=lab, nontrivial=True, key=key)
        lab.append('n-instructions:%s=%d' % (p, len(vals[0])))
        return ok()
    if what == 'entity-type':
        t = case['etype']
        if m['entities'].get(t) is None:
            return fail('listings/entity-listing-unavailable', {'type': t, 'observed': _short(_help([t]))},
                        labels=lab, nontrivial=True, key=key)
        if not m['entities'][t]:
            return fail('listings/entity-listing-empty', {'type': t, 'observed': _short(_help([t]))},
                        labels=lab, nontrivial=True, key=key)
        if len(set(m['entities'][t])) != len(m['entities'][t]):
            return fail('listings/entity-listed-twice', {'type': t, 'listed': m['entities'][t]},
                        labels=lab, nontrivial=True, key=key)
        lab.append('n-entities:%s=%d' % (t, len(m['entities'][t])))
        return ok()
    if what == 'def-type-table':
        # the types a `def` page names and the types `help type` lists are listings of the same set
        p = case['phase']
        if 'def' not in listed_union(m, p):
            return Verdict(True, nontrivial=False, key=key, labels=lab)
        rows = m['def_table'].get(p)
        if not rows or m['entities'].get('type') is None:
            return fail('listings/def-type-table-unavailable', {'phase': p, 'observed': _short(_help([p, 'def']))},
                        labels=lab, nontrivial=True, key=key)
        if sorted(rows) != sorted(m['entities']['type']):
            return fail('listings/def-type-table-differs-from-type-listing',
                        {'phase': p, '`help %s def`' % p: rows, '`help type`': m['entities']['type']},
                        labels=lab, nontrivial=True, key=key)
        return ok()
    if what == 'reporter-options':
        if sorted(m['reporter_candidates']) != sorted(m['entities'].get('reporter') or []):
            return fail('listings/reporter-options-differ-from-reporter-listing',
                        {'`help suite`, option --reporter': m['reporter_candidates'],
                         '`help reporter`': m['entities'].get('reporter')}, labels=lab, nontrivial=True, key=key)
        return ok()
    if what == 'confparams-of-concept-page':
        if m['confparams_of_concept'] is None or \
                sorted(m['confparams_of_concept']) != sorted(m['entities'].get('confparam') or []):
            return fail('listings/concept-page-differs-from-confparam-listing',
                        {'`help concept configuration parameter`': m['confparams_of_concept'],
                         '`help confparam`': m['entities'].get('confparam')}, labels=lab, nontrivial=True, key=key)
        return ok()
    if what == 'actor-synopsis':
        named = sorted(f[2] for f in m['actor_forms'])
        if named != sorted(m['entities'].get('actor') or []):
            return fail('listings/actor-synopsis-differs-from-actor-listing',
                        {'forms of `help conf actor`': m['actor_forms'], '`help actor`': m['entities'].get('actor')},
                        labels=lab, nontrivial=True, key=key)
        return ok()
    if what == 'fixed-page':
        h = _help(case['args'])
        p = _page_problem(h)
        if p:
            return fail('listings/fixed-page/' + p, {'args': case['args'], 'observed': _short(h)},
                        labels=lab, nontrivial=True, key=key)
        return ok()
    return fail('listings/unknown-case', case)


# ---------------------------------------------------------------------------------------------------------
# sub-check: every (phase, instruction) and suite (section, instruction): listed <=> accepted, page displays
# ---------------------------------------------------------------------------------------------------------
def enum_instructions(tier):
    m = model()
    for p in PHASES:
        names = set(listed_union(m, p))
        if m['T_phase'] is not None:
            names |= set(m['T_phase'][p])
        for n in sorted(names):
            yield {'place': 'phase', 'section': p, 'name': n}
    for s in sorted(set(m['sections']) | set(PHASES) | set(NON_PHASE_SECTIONS)):
        own, via = listed_in_section(m, s)
        names = set(own) | set(via)
        if s == 'conf' and m['T_suite_conf'] is not None:
            names |= set(m['T_suite_conf'])
        if s in PHASES and m['T_phase'] is not None:
            names |= set(m['T_phase'][s])
        for n in sorted(names):
            yield {'place': 'suite', 'section': s, 'name': n}


def check_instruction(case) -> Verdict:
    m = model()
    place, sec, name = case['place'], case['section'], case['name']
    key = 'instr|%s|%s|%s' % (place, sec, name)
    lab = ['place:%s[%s]' % (place, sec)]

    def bad(bucket, **d):
        d.update({'place': place, 'section': sec, 'name': name})
        return fail('instr/%s/%s' % (place, bucket), d, labels=lab, nontrivial=True, key=key)

    # ---- which sources know the name
    if place == 'phase':
        srcs = listed_in_phase(m, sec)
        missing = sorted(k for k, v in srcs.items() if name not in v)
        listed = len(missing) < len(srcs)
        in_table = None if m['T_phase'] is None else name in m['T_phase'][sec]
    else:
        own, via = listed_in_section(m, sec)
        listed = name in own or name in via
        missing = []
        in_table = None
        if m['T_phase'] is not None:
            in_table = (sec in PHASES and name in m['T_phase'][sec]) or \
                       (sec == 'conf' and m['T_suite_conf'] is not None and name in m['T_suite_conf'])
    lab.append('listed:%s' % listed)
    lab.append('in-parser-table:%s' % in_table)
    # ---- behaviour
    kind = 'case' if place == 'phase' else 'suite'
    if sec in ('act',) + tuple(NON_PHASE_SECTIONS):
        return bad('name-listed-for-a-section-without-instructions', listed=listed, in_table=in_table)
    pr = probe_line(kind, sec, name, '', usage_args(name))
    if pr['exc']:
        return bad('escaped-exception', probe=pr)
    if not pr['control_rejected']:
        return bad('control-name-not-rejected', probe=pr)
    accepted = not pr['unknown_like']
    lab.append('accepted:%s' % accepted)
    lab.append('outcome:%s' % (pr['ident'].split(' ')[0][:20] if place == 'phase' else 'exit-%s' % pr['exit']))
    if listed and not accepted:
        return bad('listed-but-rejected-as-unknown', probe=pr)
    if not listed and accepted:
        return bad('accepted-but-not-listed', probe=pr, in_parser_table=in_table)
    if not listed and not accepted:
        # known to the parser table only, and yet not accepted: table and behaviour disagree
        return bad('in-parser-table-but-neither-listed-nor-accepted', probe=pr)
    if missing:
        return bad('missing-from-a-listing', not_listed_by=missing)
    if in_table is False:
        return bad('listed-and-accepted-but-not-in-parser-table')
    if name in USAGE and pr['rejected']:
        return bad('documented-synopsis-is-a-syntax-error', probe=pr)
    # ---- help entries
    if place == 'phase':
        h = _help([sec, name])
        p = _page_problem(h)
        if p:
            return bad('help-page/' + p, args=['help', sec, name], observed=_short(h))
        h2 = _help([name])
        p = _page_problem(h2)
        if p:
            return bad('help-INSTRUCTION-page/' + p, args=['help', name], observed=_short(h2))
        phases_with = [q for q in PHASES if name in listed_union(m, q)]
        lacking = [q for q in phases_with if '[%s]' % q not in h2['out']]
        if name in HELP_KEYWORDS or name in PHASES or name in m['entity_types']:
            # the synopsis is ambiguous for such a word (`help actor`: ENTITY-TYPE as well as INSTRUCTION)
            lab.append('help-INSTRUCTION:name-is-also-a-keyword')
        elif lacking:
            return bad('help-INSTRUCTION-does-not-describe-all-phases', args=['help', name], lacking=lacking,
                       observed=_short(h2))
        lab.append('n-phases-of-name:%d' % len(phases_with))
    else:
        own, via = listed_in_section(m, sec)
        h = _help(['suite', sec, name])
        p = _page_problem(h)
        if p is None:
            lab.append('suite-help:direct')
        else:
            if name in own:
                return bad('help-page/' + p, args=['help', 'suite', sec, name], observed=_short(h))
            # section corresponding to a phase: the section page refers to the phase
            sp = m['suite_page'].get(sec) or ''
            if sec not in xrefs_of(sp):
                return bad('section-page-does-not-refer-to-phase', args=['help', 'suite', sec], page=sp[:600])
            hp = _help([sec, name])
            pp = _page_problem(hp)
            if pp:
                return bad('help-page/' + pp, args=['help', sec, name], observed=_short(hp))
            if _usage_error_problem(h) is not None:
                return bad('help-suite-neither-page-nor-usage-error', args=['help', 'suite', sec, name],
                           observed=_short(h))
            lab.append('suite-help:via-phase-page')
    return Verdict(True, nontrivial=True, key=key, labels=lab)


# ---------------------------------------------------------------------------------------------------------
# sub-check: negative instruction names
# ---------------------------------------------------------------------------------------------------------
_MUT_ALPHABET = list('abcdefghijklmnopqrstuvwxyz') + list('ADEFLRSTX') + list('0159') + list('-_$%.=+:') + ['é']
_SYM_ALPHABET = list('ABCDEFGHIJKLMNOPQRSTUVWXYZ_') + list('aex019')

_STATIC_NAMES = sorted(set(USAGE) | {'including'})


def _vocab_instr():
    names = set(_STATIC_NAMES)
    try:
        m = model()
        for p in PHASES:
            names |= listed_union(m, p)
            if m['T_phase'] is not None:
                names |= set(m['T_phase'][p])
        for s in m['L_suite_page']:
            names |= set(m['L_suite_page'][s] or [])
        names |= set(m['T_suite_conf'] or [])
        names |= set(m['entities'].get('directive') or [])
    except Exception:
        pass
    return sorted(n for n in names if n and not any(c.isspace() for c in n))


@st.composite
def _mutation(draw, base_names, alphabet, allow_case=True):
    base = draw(st.sampled_from(base_names))
    ops = ['ins', 'del', 'sub', 'swap'] + (['case'] if allow_case else [])
    op = draw(st.sampled_from(ops))
    if op == 'ins':
        i = draw(st.integers(0, len(base)))
        res = base[:i] + draw(st.sampled_from(alphabet)) + base[i:]
    elif op == 'del':
        i = draw(st.integers(0, len(base) - 1))
        res = base[:i] + base[i + 1:]
    elif op == 'sub':
        i = draw(st.integers(0, len(base) - 1))
        res = base[:i] + draw(st.sampled_from(alphabet)) + base[i + 1:]
    elif op == 'swap':
        i = draw(st.integers(0, max(0, len(base) - 2)))
        res = base[:i] + base[i + 1:i + 2] + base[i:i + 1] + base[i + 2:]
    else:
        i = draw(st.integers(0, len(base) - 1))
        res = base[:i] + base[i].swapcase() + base[i + 1:]
    return {'base': base, 'op': op, 'name': res}


def strategy_neg_instr(tier):
    vocab = _vocab_instr()
    mut = _mutation(vocab, _MUT_ALPHABET)
    other = st.sampled_from(vocab).map(lambda n: {'base': n, 'op': 'other-place', 'name': n})
    return st.fixed_dictionaries({
        'place': st.sampled_from(['phase', 'suite']),
        'section': st.sampled_from(INSTR_PHASES),
        'mut': st.one_of(mut, mut, mut, mut, other),
    }).map(lambda d: {'place': d['place'], 'section': d['section'], 'name': d['mut']['name'],
                      'base': d['mut']['base'], 'op': d['mut']['op']})


def _line_safe(name):
    """a name that occupies the instruction-name position of a line by the rules of `help case spec`"""
    return bool(name) and not any(c.isspace() for c in name) and name[0] not in '#[`\'"\\' \
        and '{' not in name and '}' not in name


def check_neg_instruction(case) -> Verdict:
    m = model()
    place, sec, name = case['place'], case['section'], case['name']
    key = 'neg|%s|%s|%s' % (place, sec, name)
    lab = ['neg-place:%s' % place, 'neg-op:%s' % case.get('op')]
    if place == 'phase':
        listed = listed_union(m, sec)
        table = set(m['T_phase'][sec]) if m['T_phase'] is not None else set()
    else:
        own, via = listed_in_section(m, sec)
        listed = own | via
        table = set()
        if m['T_phase'] is not None:
            table = set(m['T_phase'].get(sec, [])) | (set(m['T_suite_conf'] or []) if sec == 'conf' else set())
    directives = set(m['entities'].get('directive') or [])
    if name in listed or name in table:
        v = check_instruction({'place': place, 'section': sec, 'name': name})
        v.labels = ['neg-draw-is-a-listed-name']
        v.nontrivial = False
        return v
    if name in directives or not _line_safe(name) or sec not in INSTR_PHASES:
        return Verdict(True, nontrivial=False, key=key, labels=['neg-draw-not-applicable'])

    def bad(bucket, **d):
        d.update({'place': place, 'section': sec, 'name': name, 'derived_from': case.get('base'), 'op': case.get('op'),
                  'listed_for_section': sorted(listed)})
        return fail('neg-instr/%s/%s' % (place, bucket), d, labels=lab, nontrivial=True, key=key)

    pr = probe_line('case' if place == 'phase' else 'suite', sec, name, '', usage_args(case.get('base') or ''))
    if pr['exc']:
        return bad('escaped-exception', probe=pr)
    if not pr['control_rejected']:
        return bad('control-name-not-rejected', probe=pr)
    if not pr['rejected']:
        return bad('unlisted-name-accepted', probe=pr)
    if not pr['unknown_like']:
        return bad('unlisted-name-not-treated-as-unknown-instruction', probe=pr)
    # ---- no help page of its own
    if place == 'phase':
        prob, l1 = check_unlisted_help([sec], [name], listed, lambda l: [sec, l])
        if prob:
            return bad('help-page-for-unlisted-name', args=['help', sec, name], **prob)
        lab.append('help-PHASE-NAME:' + l1)
        # `help NAME`: first-position vocabulary
        first = set(HELP_KEYWORDS) | set(PHASES) | set(m['entity_types']) | set(ENTITY_TYPES)
        for q in PHASES:
            first |= listed_union(m, q)
        if not attributable(name, first):
            h = _help([name], memo=False)
            p = _usage_error_problem(h)
            if p:
                return bad('help-NAME-for-unknown-name/' + p, args=['help', name], observed=_short(h))
            lab.append('help-NAME:usage-error')
        else:
            h = _help([name], memo=False)
            if h['exc'] or (_usage_error_problem(h) is not None and _page_problem(h) is not None):
                return bad('help-NAME-malformed-outcome', args=['help', name], observed=_short(h))
            lab.append('help-NAME:related-to-a-known-word')
    else:
        own, via = listed_in_section(m, sec)
        prob, l1 = check_unlisted_help(['suite', sec], [name], own, lambda l: ['suite', sec, l])
        if prob and attributable(name, via):
            prob = None  # ambiguous reading of `help suite SECTION INSTRUCTION` (see ASSUMPTIONS)
        if prob:
            return bad('help-page-for-unlisted-name', args=['help', 'suite', sec, name], **prob)
        lab.append('help-suite-SECTION-NAME:' + l1)
    return Verdict(True, nontrivial=True, key=key, labels=lab)


# ---------------------------------------------------------------------------------------------------------
# sub-check: entities
# ---------------------------------------------------------------------------------------------------------
def _second_source(m, t):
    if t == 'builtin':
        return set(m['T_builtin'] or [])
    if t == 'actor':
        return {f[2] for f in m['actor_forms']}
    if t == 'reporter':
        return set(m['reporter_candidates']) | {'progress', 'junit'}
    if t == 'type':
        res = set(m['type_candidates']) | set(TYPE_VALUES)
        for rows in m.get('def_table', {}).values():
            res |= set(rows or [])
        return res
    if t == 'confparam':
        return set(listed_union(m, 'conf')) | set((m['T_phase'] or {}).get('conf', []))
    if t == 'directive':
        return set(m['directive_phases']) | {'including'}
    return set()


def enum_entities(tier):
    m = model()
    for t in sorted(set(ENTITY_TYPES) | set(m['entity_types'])):
        names = set(m['entities'].get(t) or []) | _second_source(m, t)
        for n in sorted(names):
            yield {'etype': t, 'name': n}


def entity_behaviour(m, t, name):
    """-> (accepted: True/False/None (no behaviour for this kind), evidence dict)"""
    if t == 'actor':
        forms = [f for f in m['actor_forms'] if f[2] == name]
        if not forms:
            return False, {'what': 'no form of the `actor` instruction selects this actor',
                           'synopsis forms': m['actor_forms']}
        kw, interp, _ = forms[0]
        files = dict(FILES)
        files['src.py'] = 'pass\n'

        def go(k):
            line = 'actor = %s%s' % (k, (' ' + driver.PYTHON) if interp else '')
            files['t.case'] = '[conf]\n%s\n[act]\n%s\n' % (line, ACT_FOR_ACTOR.get(name, ''))
            return _run(['t.case'], files)

        r, c = go(kw), go(CONTROL)
        shown = '[conf]\nactor = %s%s\n[act]\n%s\n' % (kw, ' {PY}' if interp else '', ACT_FOR_ACTOR.get(name, ''))
        ev = {'text': shown, 'exit': r.exit_code, 'ident': _ident(r), 'err': r.err[:400], 'exc': r.exception,
              'control': {'exit': c.exit_code, 'ident': _ident(c), 'err': c.err[:300]}}
        unknown_like = r.exit_code == c.exit_code and r.out == c.out and r.err == c.err.replace(CONTROL, kw)
        acc = c.exit_code == 65 and _ident(c) == 'SYNTAX_ERROR' and not unknown_like and not r.exception
        if name in ACT_FOR_ACTOR and _ident(r) != 'PASS':
            acc = False
        return acc, ev
    if t == 'type':
        if not _line_safe(name):
            return False, {'what': 'not usable as a token'}
        pr = probe_line('case', 'setup', name, 'def ', ' C20_SYMBOL = %s' % TYPE_VALUES.get(name, 'x'))
        acc = pr['control_rejected'] and not pr['unknown_like'] and not pr['exc']
        if name in TYPE_VALUES and pr['rejected']:
            acc = False
        return acc, pr
    if t == 'builtin':
        files = dict(FILES)
        files['t.case'] = '[setup]\ndef list C20_SYMBOL = @[%s]@\n' % name
        r = _run(['t.case'], files)
        ev = {'text': files['t.case'], 'exit': r.exit_code, 'ident': _ident(r), 'err': r.err[:400], 'exc': r.exception}
        return (r.exit_code == 0 and _ident(r) == 'PASS' and not r.exception), ev
    if t == 'reporter':
        r = _run(['suite', '--reporter', name, 't.case'], {'t.case': ''})
        ev = {'argv': ['suite', '--reporter', name, 'EMPTY-SUITE-FILE'], 'exit': r.exit_code, 'out': r.out[:200],
              'err': r.err[:400], 'exc': r.exception}
        return (r.exit_code == 0 and not r.exception), ev
    if t == 'directive':
        if not _line_safe(name):
            return False, {'what': 'not usable as a token'}
        phases = m['directive_phases'].get(name) or ['setup']
        evs = []
        acc = True
        for p in phases:
            pr = probe_line('case', p, name, '', ' inc.xly')
            evs.append(pr)
            if not pr['control_rejected'] or pr['unknown_like'] or pr['rejected'] or pr['exc']:
                acc = False
        return acc, {'phases said to accept it': phases, 'probes': evs}
    if t == 'confparam':
        if not _line_safe(name):
            return False, {'what': 'not usable as a token'}
        pr = probe_line('case', 'conf', name, '', ' = %s' % CONFPARAM_VALUES.get(name, 'x'))
        acc = pr['control_rejected'] and not pr['unknown_like'] and not pr['exc']
        if name in CONFPARAM_VALUES and pr['rejected']:
            acc = False
        return acc, pr
    return None, None


def check_entity(case) -> Verdict:
    m = model()
    t, name = case['etype'], case['name']
    key = 'entity|%s|%s' % (t, name)
    lab = ['etype:' + t]
    listing = m['entities'].get(t)

    def bad(bucket, **d):
        d.update({'entity_type': t, 'name': name})
        return fail('entity/%s/%s' % (t, bucket), d, labels=lab, nontrivial=True, key=key)

    if listing is None:
        return bad('listing-unavailable', observed=_short(_help([t])))
    listed = name in listing
    acc, ev = entity_behaviour(m, t, name)
    lab.append('listed:%s' % listed)
    lab.append('accepted:%s' % acc)
    if ev and isinstance(ev, dict) and ev.get('exc'):
        return bad('escaped-exception', evidence=ev)
    if not listed:
        if acc:
            return bad('accepted-but-not-listed', evidence=ev, listed=listing)
        return Verdict(True, nontrivial=False, key=key, labels=['entity-candidate-neither-listed-nor-accepted'])
    if acc is False:
        return bad('listed-but-not-accepted', evidence=ev)
    second = _second_source(m, t)
    if t == 'builtin' and m['T_builtin'] is not None and name not in second:
        return bad('listed-and-accepted-but-not-in-symbol-table')
    h = _help([t] + name.split())
    p = _page_problem(h)
    if p:
        return bad('help-page/' + p, args=['help', t] + name.split(), observed=_short(h))
    # an exact name must be displayed as itself (a sub-string match shows the matched name as a header)
    others = [e for e in listing if e != name]
    if h['out'].split('\n', 1)[0].strip() in others:
        return bad('help-page-of-another-entity', args=['help', t] + name.split(), observed=_short(h))
    return Verdict(True, nontrivial=True, key=key, labels=lab)


# ---------------------------------------------------------------------------------------------------------
# sub-check: negative entity names
# ---------------------------------------------------------------------------------------------------------
def _vocab_entities():
    res = {}
    static = {'actor': ['command line', 'file interpreter', 'source interpreter', 'null', 'command', 'file', 'source'],
              'type': sorted(TYPE_VALUES), 'builtin': ['TAB', 'NEW_LINE', 'EXACTLY_HOME', 'EXACTLY_ACT'],
              'reporter': ['progress', 'junit'], 'directive': ['including'], 'confparam': sorted(CONFPARAM_VALUES),
              'concept': ['actor', 'symbol', 'shell syntax', 'type'], 'syntax': ['PATH', 'STRING', 'TEXT-MATCHER']}
    try:
        m = model()
    except Exception:
        m = None
    for t in ENTITY_TYPES:
        names = set(static.get(t, []))
        if m is not None:
            names |= set(m['entities'].get(t) or [])
            names |= _second_source(m, t)
            if t == 'actor':
                names |= {f[0] for f in m['actor_forms']}
        res[t] = sorted(n for n in names if n)
    return res


def strategy_neg_entity(tier):
    vocab = _vocab_entities()
    everything = sorted({n for t in vocab for n in vocab[t]})

    @st.composite
    def one(draw):
        t = draw(st.sampled_from(ENTITY_TYPES))
        how = draw(st.sampled_from(['mut', 'mut', 'mut', 'other-type']))
        if how == 'mut':
            alphabet = _SYM_ALPHABET if t == 'builtin' else _MUT_ALPHABET
            mu = draw(_mutation(vocab[t], alphabet, allow_case=(t != 'builtin')))
        else:
            n = draw(st.sampled_from(everything))
            mu = {'base': n, 'op': 'other-type', 'name': n}
        return {'etype': t, 'name': mu['name'], 'base': mu['base'], 'op': mu['op']}

    return one()


def check_neg_entity(case) -> Verdict:
    m = model()
    t, name = case['etype'], case['name']
    key = 'neg-entity|%s|%s' % (t, name)
    lab = ['neg-etype:' + t, 'neg-op:%s' % case.get('op')]
    listing = m['entities'].get(t)
    if listing is None:
        return fail('neg-entity/%s/listing-unavailable' % t, {'observed': _short(_help([t]))}, labels=lab,
                    nontrivial=True, key=key)
    words = name.split()
    if name in listing or ' '.join(words) in listing:
        v = check_entity({'etype': t, 'name': ' '.join(words)})
        v.labels = ['neg-draw-is-a-listed-name']
        v.nontrivial = False
        return v
    if not words:
        return Verdict(True, nontrivial=False, key=key, labels=['neg-draw-not-applicable'])

    def bad(bucket, **d):
        d.update({'entity_type': t, 'name': name, 'derived_from': case.get('base'), 'op': case.get('op'),
                  'listed': listing})
        return fail('neg-entity/%s/%s' % (t, bucket), d, labels=lab, nontrivial=True, key=key)

    prob, l1 = check_unlisted_help([t], words, listing, lambda l: [t] + l.split())
    if prob:
        return bad('help-page-for-unlisted-name', args=['help', t] + words, **prob)
    lab.append('help:' + l1)
    # ---- behaviour: the unlisted name is not accepted
    single = len(words) == 1 and words[0] == name and _line_safe(name) and not name.startswith('-')
    beh = 'none'
    if single:
        if t == 'actor':
            if name not in {f[0] for f in m['actor_forms']}:
                pr = probe_line('case', 'conf', name, 'actor = ', '')
                beh = 'rejected' if pr['rejected'] else 'accepted'
                if pr['exc'] or not pr['rejected']:
                    return bad('unlisted-actor-keyword-accepted', probe=pr, synopsis_forms=m['actor_forms'])
        elif t == 'type':
            pr = probe_line('case', 'setup', name, 'def ', ' C20_SYMBOL = x')
            beh = 'rejected' if pr['rejected'] and pr['unknown_like'] else 'accepted'
            if pr['exc'] or not pr['control_rejected'] or beh != 'rejected':
                return bad('unlisted-type-accepted', probe=pr)
        elif t == 'builtin':
            if re.match(r'^[A-Za-z0-9_]+$', name):
                files = {'t.case': '[setup]\ndef list C20_SYMBOL = @[%s]@\n' % name}
                r = _run(['t.case'], files)
                c = _run(['t.case'], {'t.case': '[setup]\ndef list C20_SYMBOL = @[%s]@\n' % CONTROL_SYM})
                same = (r.exit_code == c.exit_code and r.out == c.out and r.err == c.err.replace(CONTROL_SYM, name))
                beh = 'rejected' if same and c.exit_code == 65 and _ident(c) == 'VALIDATION_ERROR' else 'accepted'
                if r.exception or beh != 'rejected':
                    return bad('unlisted-builtin-symbol-defined',
                               probe={'text': files['t.case'], 'exit': r.exit_code, 'ident': _ident(r),
                                      'err': r.err[:400], 'control': {'exit': c.exit_code, 'ident': _ident(c)}})
        elif t == 'reporter':
            r = _run(['suite', '--reporter', name, 't.case'], {'t.case': ''})
            beh = 'rejected' if r.exit_code == USAGE_EXIT and r.out == '' else 'accepted'
            if r.exception or beh != 'rejected':
                return bad('unlisted-reporter-accepted', probe={'argv': ['suite', '--reporter', name, 'EMPTY-SUITE'],
                                                                'exit': r.exit_code, 'out': r.out[:200],
                                                                'err': r.err[:300], 'exc': r.exception})
        elif t in ('directive', 'confparam'):
            p = 'setup' if t == 'directive' else 'conf'
            if name not in listed_union(m, p) and name not in (m['entities'].get('directive') or []):
                pr = probe_line('case', p, name, '', ' inc.xly' if t == 'directive' else ' = x')
                beh = 'rejected' if pr['rejected'] and pr['unknown_like'] else 'accepted'
                if pr['exc'] or not pr['control_rejected'] or beh != 'rejected':
                    return bad('unlisted-name-accepted', probe=pr)
    lab.append('neg-behaviour:%s' % beh)
    return Verdict(True, nontrivial=True, key=key, labels=lab)


# ---------------------------------------------------------------------------------------------------------
# sub-check: HTML manual
# ---------------------------------------------------------------------------------------------------------
_URL_SCHEME = re.compile(r'^(https?|ftp|mailto|file):', re.I)


def enum_html(tier):
    yield {'kind': 'document'}
    d = html_doc()
    if d['doc'] is None:
        return
    for h in sorted(d['doc'].hrefs):
        yield {'kind': 'href', 'href': h}
    for i in sorted(set(d['doc'].ids) | set(d['doc'].names)):
        yield {'kind': 'id', 'id': i}
    m = model()
    for p in PHASES:
        yield {'kind': 'covers', 'what': 'phase', 'name': p}
        for n in sorted(listed_union(m, p)):
            yield {'kind': 'covers', 'what': 'instruction', 'phase': p, 'name': n}
    for s in m['sections']:
        yield {'kind': 'covers', 'what': 'section', 'name': s}
        for n in sorted(m['L_suite_page'].get(s) or []):
            yield {'kind': 'covers', 'what': 'suite-instruction', 'phase': s, 'name': n}
    for t in ENTITY_TYPES:
        for n in sorted(m['entities'].get(t) or []):
            yield {'kind': 'covers', 'what': 'entity:' + t, 'name': n}


def check_html(case) -> Verdict:
    d = html_doc()
    kind = case['kind']
    key = 'html|' + '|'.join('%s' % case[k] for k in sorted(case))
    lab = ['html:' + kind]

    def bad(bucket, **x):
        x.update({'case': case})
        return fail('html/' + bucket, x, labels=lab, nontrivial=True, key=key)

    if d['doc'] is None:
        return bad('document-unavailable', problem=d['problem'], observed=d['short'])
    doc = d['doc']
    if kind == 'document':
        if '<html' not in d['head'].lower():
            return bad('not-an-html-document', head=d['head'])
        if len(doc.ids) < 20 or len(doc.hrefs) < 20:
            return bad('implausibly-few-anchors', ids=len(doc.ids), hrefs=len(doc.hrefs))
        dup = sorted(i for i, c in doc.ids.items() if c + doc.names.get(i, 0) > 1)
        if dup:
            return bad('duplicate-ids', duplicates=dup[:20])
        lab += ['html-ids=%d' % len(doc.ids), 'html-distinct-hrefs=%d' % len(doc.hrefs),
                'html-links=%d' % sum(doc.hrefs.values())]
        return Verdict(True, nontrivial=True, key=key, labels=lab)
    if kind == 'id':
        c = doc.ids.get(case['id'], 0) + doc.names.get(case['id'], 0)
        if c != 1:
            return bad('id-not-unique', count=c)
        if case['id'].strip() == '' or any(ch.isspace() for ch in case['id']):
            return bad('id-with-whitespace')
        return Verdict(True, nontrivial=True, key=key, labels=lab)
    if kind == 'href':
        h = case['href']
        if h.startswith('#'):
            frag = h[1:]
            if frag == '':
                return Verdict(True, nontrivial=True, key=key, labels=lab + ['href:top-of-document'])
            cnt = doc.ids.get(frag, 0) + doc.names.get(frag, 0)
            if cnt == 0 and unquote(frag) != frag:
                cnt = doc.ids.get(unquote(frag), 0) + doc.names.get(unquote(frag), 0)
            if cnt != 1:
                return bad('dangling-internal-link' if cnt == 0 else 'ambiguous-internal-link', targets_found=cnt,
                           occurrences=doc.hrefs.get(h))
            return Verdict(True, nontrivial=True, key=key, labels=lab + ['href:internal'])
        if _URL_SCHEME.match(h):
            return Verdict(True, nontrivial=True, key=key, labels=lab + ['href:external-url'])
        return bad('link-neither-internal-nor-url', occurrences=doc.hrefs.get(h))
    if kind == 'covers':
        # every listed item is documented by an anchored part of the manual whose heading is the item's name
        name = case['name']
        want = {name, '[%s]' % name, '"%s"' % name}
        hits = [i for i, t in doc.headed.items() if t is not None and t in want]
        if case['what'] in ('instruction', 'suite-instruction'):
            hits = [i for i in hits if case['phase'] in i.split('.')] or hits
        if not hits:
            return bad('listed-item-without-anchored-heading/' + case['what'].split(':')[0],
                       headings_containing_name=sorted(t for t in set(doc.headed.values()) if t and name in t)[:10])
        return Verdict(True, nontrivial=True, key=key, labels=lab + ['covers:' + case['what']])
    return bad('unknown-case')


# ---------------------------------------------------------------------------------------------------------
# sub-check: `(>help ...)` references of the text pages
# ---------------------------------------------------------------------------------------------------------
def enum_pages(tier):
    m = model()
    seen = set()

    def out(args):
        k = tuple(args)
        if k not in seen:
            seen.add(k)
            return True
        return False

    pages = [[], ['help'], ['case'], ['case', 'spec'], ['suite'], ['suite', 'spec'], ['symbol'], ['instructions']]
    for p in PHASES:
        pages.append([p])
        pages.append([p, 'instructions'])
        for n in sorted(listed_union(m, p)):
            pages.append([p, n])
            pages.append([n])
    for s in sorted(set(m['sections']) | set(PHASES) | set(NON_PHASE_SECTIONS)):
        pages.append(['suite', s])
        for n in sorted(m['L_suite_page'].get(s) or []):
            pages.append(['suite', s, n])
    for t in sorted(set(ENTITY_TYPES) | set(m['entity_types'])):
        pages.append([t])
        for n in sorted(m['entities'].get(t) or []):
            pages.append([t] + n.split())
    for a in pages:
        if out(a):
            yield {'page': a}


def check_page_refs(case) -> Verdict:
    args = case['page']
    key = 'page|' + ' '.join(args)
    h = _help(args)
    lab = []
    if args[-1:] == ['instructions'] and len(args) == 2 and _usage_error_problem(h) is None:
        return Verdict(True, nontrivial=False, key=key, labels=['page:phase-without-instructions'])
    p = _page_problem(h)
    if p:
        return fail('page/' + p, {'args': ['help'] + args, 'observed': _short(h)}, nontrivial=True, key=key)
    refs = xrefs_of(h['out'])
    lab.append('page-refs:%s' % ('0' if not refs else '1-5' if len(refs) <= 5 else '6+'))
    for ref in sorted(set(refs)):
        words = ref.split()
        rh = _help(words)
        rp = _page_problem(rh)
        if rp:
            return fail('page/dead-reference/' + rp, {'page': ['help'] + args, 'reference': '>help ' + ref,
                                                       'observed': _short(rh)}, labels=lab, nontrivial=True, key=key)
        lab.append('ref-kind:%s' % (words[0] if words and words[0] in ENTITY_TYPES + ['suite', 'case', 'symbol']
                                   else 'phase-or-instruction'))
    return Verdict(True, nontrivial=bool(refs), key=key, labels=lab)


# ---------------------------------------------------------------------------------------------------------
# sub-check: random help argument lists
# ---------------------------------------------------------------------------------------------------------
def _synopsis_forms(m):
    """well-formed requests by the synopsis of `help help`, with exact names"""
    forms = [[], ['help'], ['htmldoc'], ['case'], ['case', 'spec'], ['instructions'], ['suite'], ['suite', 'spec'],
             ['symbol']]
    for p in PHASES:
        forms.append([p])
        names = sorted(listed_union(m, p))
        if names:
            forms.append([p, 'instructions'])
        for n in names:
            forms.append([p, n])
            forms.append([n])
    for s in m['sections']:
        forms.append(['suite', s])
        for n in m['L_suite_page'].get(s) or []:
            forms.append(['suite', s, n])
    for t in m['entity_types']:
        forms.append([t])
        for n in m['entities'].get(t) or []:
            forms.append([t] + n.split())
    return forms


_WF = None


def _wellformed_set():
    global _WF
    if _WF is None:
        _WF = {tuple(f) for f in _synopsis_forms(model())}
    return _WF


def strategy_args(tier):
    try:
        m = model()
        forms = _synopsis_forms(m)
    except Exception:
        forms = [[], ['help'], ['htmldoc'], ['instructions'], ['setup', 'def'], ['concept', 'actor']]
    words = sorted({w for f in forms for w in f} | set(HELP_KEYWORDS) | {'spec', CONTROL, '', ' ', '-h', '--help',
                                                                         'Instructions', 'SETUP', 'a', 'e', '*'})
    form = st.sampled_from(forms)
    word = st.one_of(st.sampled_from(words), st.sampled_from(words),
                     _mutation([w for w in words if w], _MUT_ALPHABET).map(lambda d: d['name']),
                     st.text(max_size=6))

    @st.composite
    def perturbed(draw):
        f = list(draw(form))
        op = draw(st.sampled_from(['none', 'append', 'drop', 'replace', 'insert', 'swap', 'upper']))
        if op == 'append':
            f.append(draw(word))
        elif op == 'drop' and f:
            del f[draw(st.integers(0, len(f) - 1))]
        elif op == 'replace' and f:
            f[draw(st.integers(0, len(f) - 1))] = draw(word)
        elif op == 'insert':
            f.insert(draw(st.integers(0, len(f))), draw(word))
        elif op == 'swap' and len(f) > 1:
            i = draw(st.integers(0, len(f) - 2))
            f[i], f[i + 1] = f[i + 1], f[i]
        elif op == 'upper' and f:
            i = draw(st.integers(0, len(f) - 1))
            f[i] = f[i].swapcase()
        return f

    return st.one_of(form.map(list), perturbed(), perturbed(), st.lists(word, max_size=5)) \
        .map(lambda a: {'args': a})


def check_args(case) -> Verdict:
    args = case['args']
    key = 'args|' + '\x1f'.join(args)
    m = model()
    wf = tuple(args) in _wellformed_set()
    h = _help(args, memo=False)
    lab = ['args-well-formed:%s' % wf, 'args-n:%d' % len(args)]

    def bad(bucket, **d):
        d.update({'args': ['help'] + args, 'observed': _short(h), 'matches_a_synopsis_form_with_listed_names': wf})
        return fail('args/' + bucket, d, labels=lab, nontrivial=True, key=key)

    if h['exc']:
        return bad('escaped-exception')
    if h['exit'] == 0:
        p = _page_problem(h)
        if p:
            return bad('exit-0/' + p)
    elif h['exit'] == USAGE_EXIT:
        p = _usage_error_problem(h)
        if p:
            return bad('usage-error/' + p)
        if wf:
            return bad('well-formed-request-is-a-usage-error')
    else:
        return bad('exit-code-neither-0-nor-64')
    lab.append('args-exit:%s' % h['exit'])
    if h['exit'] == 0 and not wf and args:
        # a page for a request that is not a synopsis form with exact names: the first word must at least be
        # related (case-insensitive sub-string) to a word that may stand first
        first = set(HELP_KEYWORDS) | set(PHASES) | set(m['entity_types'])
        for q in PHASES:
            first |= listed_union(m, q)
        if not attributable(args[0], first):
            return bad('page-for-a-first-argument-unrelated-to-any-known-word')
        lab.append('args-lenient-match')
    return Verdict(True, nontrivial=True, key=key, labels=lab)


# ---------------------------------------------------------------------------------------------------------
# sub-check: the real command line program answers like the in-process entry point used above
# ---------------------------------------------------------------------------------------------------------
def enum_cli(tier):
    reqs = [[], ['help'], ['instructions'], ['htmldoc'], [CONTROL], ['setup', 'def'], ['setup', CONTROL],
            ['concept', 'shell', 'syntax'], ['suite', 'conf', 'preprocessor'], ['reporter', CONTROL]]
    if tier != 'quick':
        reqs += [[p] for p in PHASES] + [[t] for t in ENTITY_TYPES] + [['case', 'spec'], ['suite', 'spec']]
    for a in reqs:
        yield {'args': a}


def check_cli(case) -> Verdict:
    args = case['args']
    key = 'cli|' + ' '.join(args)
    h = _help(args)
    with driver.Workspace() as ws:
        r = driver.run_subproc(ws, ['help'] + args)
    obs = {'exit': r.exit_code, 'out': r.out[:300], 'err': r.err[:600], 'timed_out': r.timed_out}
    lab = ['cli-exit:%s' % r.exit_code]
    if r.timed_out or r.exit_code not in (0, USAGE_EXIT) or 'Traceback (most recent call last)' in r.err:
        return fail('cli/crash-or-unexpected-exit', {'args': ['help'] + args, 'process': obs}, labels=lab,
                    nontrivial=True, key=key)
    if (r.exit_code, r.out, r.err) != (h['exit'], h['out'], h['err']):
        return fail('cli/process-differs-from-in-process-run', {'args': ['help'] + args, 'process': obs,
                                                                'in_process': _short(h)},
                    labels=lab, nontrivial=True, key=key)
    return Verdict(True, nontrivial=True, key=key, labels=lab)


SUBS = [
    Sub('listings', check_listings, enumerate=enum_listings, exhaustive=True, shards={'quick': 2, 'thorough': 2}),
    Sub('instructions', check_instruction, enumerate=enum_instructions, exhaustive=True,
        shards={'quick': 4, 'thorough': 4}),
    Sub('entities', check_entity, enumerate=enum_entities, exhaustive=True, shards={'quick': 2, 'thorough': 2}),
    Sub('html_manual', check_html, enumerate=enum_html, exhaustive=True, shards={'quick': 2, 'thorough': 2}),
    Sub('page_references', check_page_refs, enumerate=enum_pages, exhaustive=True,
        shards={'quick': 2, 'thorough': 2}),
    Sub('command_line_program', check_cli, enumerate=enum_cli, exhaustive=False),
    Sub('negative_instruction_names', check_neg_instruction, strategy=strategy_neg_instr,
        budget={'quick': 3000, 'thorough': 24000}),
    Sub('negative_entity_names', check_neg_entity, strategy=strategy_neg_entity,
        budget={'quick': 3000, 'thorough': 24000}),
    Sub('help_arguments', check_args, strategy=strategy_args, budget={'quick': 8000, 'thorough': 80000}),
]
